// replay driver for C09: equivalence of THDM Yukawa parametrisations at concrete points
#include "gm2calc/gm2_1loop.hpp"
#include "gm2calc/gm2_2loop.hpp"
#include "gm2calc/gm2_error.hpp"
#include "gm2calc/THDM.hpp"
#include <cstdio>
#include <cstring>
#include <cmath>

using namespace gm2calc;
static double rnd(unsigned& s) { s = s*1664525u + 1013904223u; return ((s >> 8) & 0xffff)/65536.0; }

struct R { double a1, a2f, a2b; bool ok; char err[200]; };

static R eval(const thdm::Mass_basis& b, bool running)
{
   R r{};
   thdm::Config cfg; cfg.running_couplings = running;
   try {
      const THDM m(b, SM{}, cfg);
      r.a1 = calculate_amu_1loop(m); r.a2f = calculate_amu_2loop_fermionic(m); r.a2b = calculate_amu_2loop_bosonic(m); r.ok = true;
   } catch (const std::exception& e) { std::snprintf(r.err, sizeof r.err, "%s", e.what()); }
   return r;
}

static bool close(double a, double b) { return a == b || std::abs(a - b) <= 1e-9*std::max(std::abs(a), std::abs(b)); }

static int compare(const char* what, const R& x, const R& y, bool bos)
{
   if (!x.ok && !y.ok) return 0;
   if (x.ok != y.ok) { std::printf("%s: one model is rejected (%s%s), the other gives a1L = %.10e\n", what, x.err, y.err, x.ok ? x.a1 : y.a1); return 1; }
   if (!(close(x.a1, y.a1) && close(x.a2f, y.a2f) && (!bos || close(x.a2b, y.a2b))) || !std::isfinite(x.a1) || !std::isfinite(y.a1)) {
      std::printf("%s: 1L %.10e vs %.10e, 2L-F %.10e vs %.10e, 2L-B %.10e vs %.10e\n", what, x.a1, y.a1, x.a2f, y.a2f, x.a2b, y.a2b);
      return 1;
   }
   return 0;
}

static thdm::Mass_basis point(unsigned& s, double tb)
{
   thdm::Mass_basis b;
   b.mh = 125; b.mH = 200 + 400*rnd(s); b.mA = 150 + 400*rnd(s); b.mHp = 200 + 400*rnd(s);
   b.sin_beta_minus_alpha = 0.995 + 0.004*rnd(s); b.tan_beta = tb; b.m122 = 5000 + 30000*rnd(s);
   return b;
}

int main(int argc, char** argv)
{
   const char* mode = argc > 1 ? argv[1] : "types";
   int bad = 0;
   unsigned s = 99;
   // zeta table: +1 = cot(beta), -1 = -tan(beta)
   const int table[4][3] = {{1,1,1},{1,-1,-1},{1,1,-1},{1,-1,1}};
   const double tbs_generic[] = {0.7, 3.3, 17.1, 47.3};
   const double tbs_singular[] = {0.5, 1, 2, 4};     // 1 - tan(beta)*(1/tan(beta)) == 0 exactly in doubles
   const bool singular = !std::strcmp(mode, "singular");
   for (int k = 0; k < 4; k++) {
      const double tb = singular ? tbs_singular[k] : tbs_generic[k];
      for (int t = 0; t < 4; t++) {
         for (int running = 0; running < 2; running++) {
            thdm::Mass_basis b = point(s, tb);
            b.yukawa_type = static_cast<thdm::Yukawa_type>(t + 1);
            thdm::Mass_basis a = b;
            a.yukawa_type = thdm::Yukawa_type::aligned;
            a.zeta_u = table[t][0] > 0 ? 1/tb : -tb; a.zeta_d = table[t][1] > 0 ? 1/tb : -tb; a.zeta_l = table[t][2] > 0 ? 1/tb : -tb;
            char what[100]; std::snprintf(what, sizeof what, "type %d vs aligned, tan(beta) = %g, running = %d", t + 1, tb, running);
            bad += compare(what, eval(b, running), eval(a, running), true);
            if (!std::strcmp(mode, "ignored") || !std::strcmp(mode, "types")) {
               thdm::Mass_basis c = b;
               c.zeta_u = 3; c.zeta_d = -2; c.zeta_l = 7; c.Pi_u(1,1) = 0.3; c.Pi_d(2,2) = 0.1; c.Pi_l(1,1) = 0.2;
               std::snprintf(what, sizeof what, "type %d with/without ignored zeta_f, Pi_f", t + 1);
               bad += compare(what, eval(b, running), eval(c, running), true);
            }
         }
      }
      // aligned with arbitrary zeta, Delta vs general with Pi encoding the same couplings (running off; 1L and fermionic 2L)
      if (!singular) {
         thdm::Mass_basis a = point(s, tb);
         a.yukawa_type = thdm::Yukawa_type::aligned;
         a.zeta_u = 2*rnd(s) - 1; a.zeta_d = 4*rnd(s) - 2; a.zeta_l = 40*rnd(s) - 20;
         a.Delta_l(1,1) = 0.01*rnd(s); a.Delta_d(2,2) = 0.02*rnd(s); a.Delta_u(2,2) = 0.1*rnd(s);
         thdm::Mass_basis g = a;
         g.yukawa_type = thdm::Yukawa_type::general;
         g.zeta_u = g.zeta_d = g.zeta_l = 0;
         g.Delta_u.setZero(); g.Delta_d.setZero(); g.Delta_l.setZero();
         const SM sm;
         const double v = sm.get_v(), cb = 1/std::sqrt(1 + tb*tb);
         for (int i = 0; i < 3; i++) {
            g.Pi_u(i,i) = cb*(std::sqrt(2.0)*sm.get_mu(i)*a.zeta_u/v + a.Delta_u(i,i) + std::sqrt(2.0)*sm.get_mu(i)*tb/v);
            g.Pi_d(i,i) = cb*(std::sqrt(2.0)*sm.get_md(i)*a.zeta_d/v + a.Delta_d(i,i) + std::sqrt(2.0)*sm.get_md(i)*tb/v);
            g.Pi_l(i,i) = cb*(std::sqrt(2.0)*sm.get_ml(i)*a.zeta_l/v + a.Delta_l(i,i) + std::sqrt(2.0)*sm.get_ml(i)*tb/v);
         }
         char what[100]; std::snprintf(what, sizeof what, "aligned vs general, tan(beta) = %g", tb);
         bad += compare(what, eval(a, false), eval(g, false), false);
         // general model: zeta_f and Delta_f are ignored
         thdm::Mass_basis g2 = g; g2.zeta_l = 5; g2.zeta_u = -1; g2.Delta_l(1,1) = 0.3;
         std::snprintf(what, sizeof what, "general model with/without ignored zeta_f, Delta_f, tan(beta) = %g", tb);
         bad += compare(what, eval(g, false), eval(g2, false), true);
      }
   }
   std::printf("%d mismatches (%s)\n", bad, mode);
   return bad ? 1 : 0;
}
