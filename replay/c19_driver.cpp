// replay driver for C19: sequential vs concurrent vs re-ordered evaluation, bitwise (run under ThreadSanitizer)
#include "gm2calc/gm2_1loop.hpp"
#include "gm2calc/gm2_2loop.hpp"
#include "gm2calc/gm2_uncertainty.hpp"
#include "gm2calc/gm2_error.hpp"
#include "gm2calc/THDM.hpp"
#include "gm2calc/MSSMNoFV_onshell.hpp"
#include <cstdio>
#include <cstring>
#include <cmath>
#include <thread>
#include <unistd.h>
#include <sys/wait.h>
#include <vector>

struct Res { double v[8]; };

static Res eval_thdm(int k)
{
   Res r{};
   gm2calc::thdm::Mass_basis basis;
   basis.yukawa_type = static_cast<gm2calc::thdm::Yukawa_type>(1 + k % 4);
   basis.mh = 125; basis.mH = 300 + 37*k; basis.mA = 250 + 41*k; basis.mHp = 280 + 29*k;
   basis.sin_beta_minus_alpha = 0.999; basis.tan_beta = 2 + k; basis.m122 = 20000 + 1000*k;
   gm2calc::SM sm;
   sm.set_alpha_em_mz(1.0/(128.9 + 0.01*k));
   sm.set_alpha_s_mz(0.118 + 0.0005*k);
   gm2calc::thdm::Config config;
   config.running_couplings = true;
   try {
      const gm2calc::THDM model(basis, sm, config);
      r.v[0] = gm2calc::calculate_amu_1loop(model);
      r.v[1] = gm2calc::calculate_amu_2loop(model);
      r.v[2] = gm2calc::calculate_amu_2loop_fermionic(model);
      r.v[3] = gm2calc::calculate_amu_2loop_bosonic(model);
      r.v[4] = gm2calc::calculate_uncertainty_amu_2loop(model);
      r.v[5] = gm2calc::calculate_amu_1loop(model);
   } catch (const gm2calc::Error& e) { r.v[7] = 1; if (k == 0) std::printf("%s\n", e.what()); }
   return r;
}

static Res eval_mssm(int k)
{
   Res r{};
   gm2calc::MSSMNoFV_onshell m;
   const double MS = 400 + 50*k;
   const Eigen::Matrix<double,3,3> U = Eigen::Matrix<double,3,3>::Identity();
   m.set_alpha_MZ(0.0077552); m.set_alpha_thompson(0.00729735); m.set_g3(std::sqrt(4*M_PI*(0.1184 + 0.0005*k)));
   m.get_physical().MFt = 173.34; m.get_physical().MFb = 4.18; m.get_physical().MFtau = 1.777; m.get_physical().MFm = 0.1056583715;
   m.get_physical().MVWm = 80.385 + 0.01*k; m.get_physical().MVZ = 91.1876 - 0.01*k; m.set_MA0(1500);
   m.set_TB(5 + 3*k); m.set_Mu(MS*1.1); m.set_MassB(MS*0.6); m.set_MassWB(MS*1.2); m.set_MassG(2000);
   m.set_mq2(MS*MS*U); m.set_ml2(MS*MS*0.8*U); m.set_md2(MS*MS*U); m.set_mu2(MS*MS*U); m.set_me2(MS*MS*0.7*U);
   m.set_Au(2,2,0); m.set_Ad(2,2,0); m.set_Ae(2,2,0); m.set_scale(454.7);
   try {
      m.calculate_masses();
      const gm2calc::MSSMNoFV_onshell& c = m;
      r.v[0] = gm2calc::calculate_amu_1loop(c);
      r.v[1] = gm2calc::calculate_amu_2loop(c);
      r.v[2] = gm2calc::calculate_amu_1loop_non_tan_beta_resummed(c);
      r.v[3] = gm2calc::calculate_amu_2loop_non_tan_beta_resummed(c);
      r.v[4] = gm2calc::calculate_uncertainty_amu_2loop(c);
      r.v[5] = gm2calc::calculate_amu_1loop(c);
      r.v[6] = gm2calc::calculate_amu_2loop(c);
   } catch (const gm2calc::Error& e) { r.v[7] = 1; if (k == 0) std::printf("%s\n", e.what()); }
   return r;
}

static Res eval(int k) { return k % 2 ? eval_mssm(k/2) : eval_thdm(k/2); }

int main()
{
   const int N = 16;
   std::vector<Res> seq(N), rev(N), par(N);
   // reversed order in a fresh process (function statics of this process must not have been touched yet)
   int fd[2];
   if (pipe(fd) != 0) return 2;
   const pid_t pid = fork();
   if (pid == 0) {
      close(fd[0]);
      for (int k = N - 1; k >= 0; k--) rev[k] = eval(k);
      const ssize_t n = write(fd[1], rev.data(), N*sizeof(Res));
      _exit(n == (ssize_t)(N*sizeof(Res)) ? 0 : 3);
   }
   close(fd[1]);
   for (int k = 0; k < N; k++) seq[k] = eval(k);
   {
      size_t got = 0;
      while (got < N*sizeof(Res)) {
         const ssize_t n = read(fd[0], reinterpret_cast<char*>(rev.data()) + got, N*sizeof(Res) - got);
         if (n <= 0) break;
         got += n;
      }
      int status = 0;
      waitpid(pid, &status, 0);
      if (got != N*sizeof(Res)) { std::printf("child process failed\n"); return 2; }
   }
   std::vector<std::thread> th;
   for (int t = 0; t < 8; t++)
      th.emplace_back([&par, t]() { for (int rep = 0; rep < 2; rep++) for (int k = t; k < N; k += 8) par[k] = eval((k + 8*rep) % N == k ? k : k); });
   for (auto& t: th) t.join();
   // a second wave where neighbouring threads evaluate different points at the same time
   std::vector<Res> par2(N);
   th.clear();
   for (int t = 0; t < N; t++) th.emplace_back([&par2, t]() { par2[t] = eval(t); });
   for (auto& t: th) t.join();
   int bad = 0;
   for (int k = 0; k < N; k++) {
      if (std::memcmp(&seq[k], &rev[k], sizeof(Res))) { bad++; std::printf("point %d: result depends on evaluation order (%.17g vs %.17g)\n", k, seq[k].v[1], rev[k].v[1]); }
      if (std::memcmp(&seq[k], &par[k], sizeof(Res)) || std::memcmp(&seq[k], &par2[k], sizeof(Res))) { bad++; std::printf("point %d: concurrent result differs from sequential\n", k); }
      if (seq[k].v[7] == 0 && std::memcmp(&seq[k].v[0], &seq[k].v[5], sizeof(double))) { bad++; std::printf("point %d: repeated call differs\n", k); }
   }
   int failed = 0; for (int k = 0; k < N; k++) failed += seq[k].v[7] != 0;
   std::printf("%d mismatches, %d of %d points rejected by the library, a2L(point 1) = %.6e\n", bad, failed, N, seq[1].v[1]);
   return bad ? 1 : 0;
}
