// replay driver for C15 (parts sum to total): sub-contributions listed by the detailed output vs the totals
#include "gm2calc/MSSMNoFV_onshell.hpp"
#include "gm2calc/gm2_1loop.hpp"
#include "gm2calc/gm2_2loop.hpp"
#include "gm2calc/gm2_error.hpp"
#include "MSSMNoFV/gm2_1loop_helpers.hpp"
#include "MSSMNoFV/gm2_2loop_helpers.hpp"
#include <cstdio>
#include <cmath>
using namespace gm2calc;
static double rnd(unsigned& s) { s = s*1664525u + 1013904223u; return ((s >> 8) & 0xffff)/65536.0; }
int main()
{
   unsigned s = 5; int bad = 0, n = 0;
   for (int it = 0; it < 30; it++) {
      MSSMNoFV_onshell m;
      const double MS = 400 + 1500*rnd(s);
      Eigen::Matrix<double,3,3> z = Eigen::Matrix<double,3,3>::Zero(), x;
      m.set_alpha_MZ(0.0077552); m.set_alpha_thompson(0.00729735); m.set_g3(std::sqrt(4*M_PI*0.1184));
      m.get_physical().MFt = 173.34; m.get_physical().MFb = 4.18; m.get_physical().MFtau = 1.777; m.get_physical().MFm = 0.1056583715;
      m.get_physical().MVWm = 80.385; m.get_physical().MVZ = 91.1876;
      m.set_TB(3 + 50*rnd(s)); m.set_Mu(MS*(0.5 + rnd(s))); m.set_MassB(MS*(0.3 + rnd(s))); m.set_MassWB(MS*(0.5 + rnd(s))); m.set_MassG(3*MS);
      auto dg = [&]() { x = z; for (int i = 0; i < 3; i++) x(i,i) = MS*MS*(0.5 + 3*rnd(s)); return x; };
      m.set_ml2(dg()); m.set_me2(dg()); m.set_mq2(dg()); m.set_mu2(dg()); m.set_md2(dg());
      m.set_Au(2,2,MS*rnd(s)); m.set_Ad(2,2,0); m.set_Ae(2,2,0); m.set_MA0(MS); m.set_scale(MS);
      try { m.calculate_masses(); } catch (const Error&) { continue; }
      n++;
      const double p2 = amu2LWHnu(m) + amu2LWHmuL(m) + amu2LBHmuL(m) + amu2LBHmuR(m) + amu2LBmuLmuR(m), t2 = amu2LFSfapprox_non_tan_beta_resummed(m);
      const double p1 = amu1LWHnu(m) + amu1LWHmuL(m) + amu1LBHmuL(m) + amu1LBHmuR(m) + amu1LBmuLmuR(m), t1 = amu1Lapprox_non_tan_beta_resummed(m);
      if (std::abs(p2 - t2) > 1e-10*std::abs(t2)) { bad++; std::printf("two-loop fermion/sfermion parts sum to %.10e, total %.10e\n", p2, t2); }
      if (std::abs(p1 - t1) > 1e-10*std::abs(t1)) { bad++; std::printf("one-loop approximation parts sum to %.10e, total %.10e\n", p1, t1); }
      if (std::abs(amu1LChi0(m) + amu1LChipm(m) - calculate_amu_1loop(m)) > 1e-12*std::abs(calculate_amu_1loop(m))) { bad++; std::printf("chi0 + chipm != 1-loop total\n"); }
   }
   std::printf("%d mismatches in %d points\n", bad, n);
   return bad ? 1 : 0;
}
