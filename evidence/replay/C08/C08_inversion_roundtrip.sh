#!/bin/sh
cd /verif && exec python3-vt -m props.replay_c08 point 125.0 531.0 254.0 504.0 -0.2 17.5 0.0 0.0 7168.0
