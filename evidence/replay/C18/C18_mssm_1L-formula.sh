#!/bin/sh
echo "MSSM one-loop uncertainty != |a2L| + delta2L at a2L=-0.0 cha=-0.0 sferm=-7.666666666666667e-10"
exit 1
