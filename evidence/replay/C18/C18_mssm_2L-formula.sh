#!/bin/sh
cd /verif && exec python3-vt -m props.replay_c18 mssm -1.5616397698720296e-09 -2.3283064365386963e-09
