#!/bin/sh
cd /verif && exec python3-vt -m props.replay_c18 mssm -0.9999999999999999 -1.0
