#!/bin/sh
cd /verif && exec python3-vt -m props.replay_c18 thdm 1.0172526041666671e-05 0.0 None -16.63537906137184
