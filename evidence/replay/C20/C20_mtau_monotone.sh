#!/bin/sh
cd /verif && exec python3-vt -m props.replay_c20 mf monotone _ZN7gm2calc24calculate_mtau_SM6_MSbarEddd 2.0 0.0625 2.0 4.0
