#!/bin/sh
cd /verif && exec python3-vt -m props.replay_c20 wolfenstein-accept 0.9375 -0.5 0.0 0.96875
