#!/bin/sh
cd /verif && exec python3-vt -m props.replay_c20 wolfenstein-reject -0.5 -0.5 0.0 7.024912639340182
