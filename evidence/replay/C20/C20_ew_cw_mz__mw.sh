#!/bin/sh
cd /verif && exec python3-vt -m props.replay_c20 ew 1.0 2.0
