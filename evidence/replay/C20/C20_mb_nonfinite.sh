#!/bin/sh
echo "mb is not finite at {'mb_mb': 5.05, 'mt_pole': 101.0, 'alpha_s_mz': 0.25, 'mz': 51.0, 'Q1': 101.0} (events ['log-negative'])"
exit 1
