#!/bin/sh
cd /verif && exec python3-vt -m props.replay_c20 lqcd 5.0 91.1876
