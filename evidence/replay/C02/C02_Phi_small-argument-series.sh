#!/bin/sh
cd /verif && exec python3-vt -m props.replay_phi 0.0001220703125 0.9765625
