#!/bin/sh
cd /verif && exec python3-vt -m props.replay_ff Fa _ZN7gm2calc2FaEdd 1.71661376953125e-05 7.62939453125e-06 0.0001
