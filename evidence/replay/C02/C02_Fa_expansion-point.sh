#!/bin/sh
cd /verif && exec python3-vt -m props.replay_ff Fa _ZN7gm2calc2FaEdd 1.0 0.9999 0.0001
