#!/bin/sh
cd /verif && exec python3-vt -m props.replay_ff Iabc _ZN7gm2calc4IabcEddd 0.9998779222360098 0.9999389629809912 1.0 1e-06
