#!/bin/sh
cd /verif && exec python3-vt -m props.replay_ff Fb _ZN7gm2calc2FbEdd 1.0 0.9999 0.0001
