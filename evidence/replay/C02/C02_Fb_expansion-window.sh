#!/bin/sh
cd /verif && exec python3-vt -m props.replay_ff Fb _ZN7gm2calc2FbEdd 1.71661376953125e-05 7.62939453125e-06 0.0001
