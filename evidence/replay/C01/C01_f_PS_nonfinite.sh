#!/bin/sh
# replay: f_PS(5e-324) against its definition (mpmath, 50 digits)
cd /verif && exec python3-vt -m props.replay_ff f_PS _ZN7gm2calc4f_PSEd 5e-324 1e-07
