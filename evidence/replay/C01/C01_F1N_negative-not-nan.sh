#!/bin/sh
# replay: F1N(-1e-14) against its definition (mpmath, 50 digits)
cd /verif && exec python3-vt -m props.replay_ff F1N _ZN7gm2calc3F1NEd -1e-14 0.0
