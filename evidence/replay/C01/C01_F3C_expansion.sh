#!/bin/sh
# replay: F3C(1.03125) against its definition (mpmath, 50 digits)
cd /verif && exec python3-vt -m props.replay_ff F3C _ZN7gm2calc3F3CEd 1.03125 1e-07
