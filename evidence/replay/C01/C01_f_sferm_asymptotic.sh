#!/bin/sh
# replay: f_sferm(131072.0) against its definition (mpmath, 50 digits)
cd /verif && exec python3-vt -m props.replay_ff f_sferm _ZN7gm2calc7f_sfermEd 131072.0 1e-07
