#!/bin/sh
# replay: F2N(1.09375) against its definition (mpmath, 50 digits)
cd /verif && exec python3-vt -m props.replay_ff F2N _ZN7gm2calc3F2NEd 1.09375 1e-07
