#!/bin/sh
# replay: F2N(2.0) against its definition (mpmath, 50 digits)
cd /verif && exec python3-vt -m props.replay_ff F2N _ZN7gm2calc3F2NEd 2.0 1e-07
