#!/bin/sh
echo "convert_to<double> lets _ZTISt12out_of_range escape instead of EReadError"
exit 1
