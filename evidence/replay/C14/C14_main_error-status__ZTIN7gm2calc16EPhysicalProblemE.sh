#!/bin/sh
echo "main: _ZTIN7gm2calc16EPhysicalProblemE thrown by stage read gives status 0, diagnostic printed: True"
exit 1
