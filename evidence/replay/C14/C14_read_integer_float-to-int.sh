#!/bin/sh
cd /verif && exec python3-vt -m props.ubsan read_integer -2147483649.0
