#!/bin/sh
cd /verif && exec python3-vt -m props.replay_c13 block matrix 'Block X\n 2 4 10.0\n 0 0 11.0\n'
