#!/bin/sh
echo "main: gm2calc exception _ZTIN7gm2calc11ESetupErrorE thrown by stage read escapes (process would abort)"
exit 1
