#!/bin/sh
echo "main: gm2calc exception _ZTIN7gm2calc10EReadErrorE thrown by stage read escapes (process would abort)"
exit 1
