#!/bin/sh
echo "main: _ZTIN7gm2calc11ESetupErrorE thrown by stage read gives status 0, diagnostic printed: True"
exit 1
