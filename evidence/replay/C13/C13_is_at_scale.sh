#!/bin/sh
cd /verif && exec python3-vt -m props.replay_c13 scale -0.00010101010101010101 -0.010101010101010102
