#!/bin/sh
cd /verif && exec python3-vt -m props.replay_c13 block matrix 'Block X\n -9223372036854775808 -9223372036854775808 10.0\n 2 4 11.0\n'
