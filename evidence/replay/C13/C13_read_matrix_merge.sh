#!/bin/sh
cd /verif && exec python3-vt -m props.replay_c13 block matrix 'Block X\n 1 1152921504606846976 10.0\n 1 18014398509481984 11.0\n'
