#!/bin/sh
cd /verif && exec python3-vt -m props.replay_c13 token double '4.4D2'
