#!/bin/sh
cd /verif && exec python3-vt -m props.replay_c13 key sminputs_mssm 6
