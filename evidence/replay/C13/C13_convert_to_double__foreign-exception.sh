#!/bin/sh
echo "convert_to<double> lets _ZTIi escape instead of EReadError"
exit 1
