#!/bin/sh
cd /verif && exec python3-vt -m props.replay_c11 kernel Fmp 3.3891347787476582 0.8472836762666702 0.0078125 0.8472836904504961
