#!/bin/sh
cd /verif && exec python3-vt -m props.replay_c11 kernel T9 3.0 0.7499999850988388 0.74999999625
