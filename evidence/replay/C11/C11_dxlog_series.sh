#!/bin/sh
cd /verif && exec python3-vt -m props.replay_c11 dxlog 0.011627197265625 0.01171875
