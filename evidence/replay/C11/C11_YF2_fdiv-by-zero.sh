#!/bin/sh
cd /verif && exec python3-vt -m props.replay_c11 kernel YF2 1.0 0.75
