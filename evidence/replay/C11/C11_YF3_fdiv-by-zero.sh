#!/bin/sh
cd /verif && exec python3-vt -m props.replay_c11 kernel YF3 2.9999999701976776 6.750000044999999 0.75
