#!/bin/sh
cd /verif && exec python3-vt -m props.replay_c11 kernel T0 0.017949192431122706 1.0 0.75
