#!/bin/sh
cd /verif && exec python3-vt -m props.replay_c12 disna 2 0 1.0020841800044862e-292 1.0020841800044863e-292
