#!/bin/sh
cd /verif && exec python3-vt -m props.replay_c12 herm 3 -1.0 0.0 0.0
