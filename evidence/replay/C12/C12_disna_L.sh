#!/bin/sh
cd /verif && exec python3-vt -m props.replay_c12 disna 2 1 0.0 0.0
