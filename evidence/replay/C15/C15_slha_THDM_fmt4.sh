#!/bin/sh
echo "SLHA writer (THDM, format 4, uncertainty False) writes []"
exit 1
