#!/bin/sh
echo "SLHA writer (MSSMNoFV_onshell, format 4, uncertainty False) writes []"
exit 1
