#!/bin/sh
echo "SLHA writer (MSSMNoFV_onshell, format 3, uncertainty False) writes []"
exit 1
