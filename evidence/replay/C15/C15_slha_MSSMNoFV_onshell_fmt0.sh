#!/bin/sh
echo "SLHA writer (MSSMNoFV_onshell, format 0, uncertainty False) writes []"
exit 1
