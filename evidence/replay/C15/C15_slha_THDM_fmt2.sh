#!/bin/sh
echo "SLHA writer (THDM, format 2, uncertainty False) writes []"
exit 1
