#!/bin/sh
echo "SLHA writer (THDM, format 0, uncertainty False) writes []"
exit 1
