#!/bin/sh
echo "SLHA writer (THDM, format 3, uncertainty False) writes []"
exit 1
