#!/bin/sh
echo "SLHA writer (MSSMNoFV_onshell, format 1, uncertainty False) writes []"
exit 1
