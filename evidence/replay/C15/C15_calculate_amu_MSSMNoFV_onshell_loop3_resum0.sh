#!/bin/sh
cd /verif && exec python3-vt -m props.replay_c15 amu MSSMNoFV_onshell 3 0
