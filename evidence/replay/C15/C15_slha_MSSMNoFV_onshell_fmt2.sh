#!/bin/sh
echo "SLHA writer (MSSMNoFV_onshell, format 2, uncertainty False) writes []"
exit 1
