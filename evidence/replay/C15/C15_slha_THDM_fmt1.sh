#!/bin/sh
echo "SLHA writer (THDM, format 1, uncertainty False) writes []"
exit 1
