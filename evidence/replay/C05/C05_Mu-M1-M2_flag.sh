#!/bin/sh
cd /verif && exec python3-vt -m props.replay_c05 gauginos
