#!/bin/sh
echo "gm2calc_mssmnofv_set_MChi_pole followed by gm2calc_mssmnofv_get_MChi does not return the value set"
exit 1
