#!/bin/sh
echo "gm2calc_mssmnofv_calculate_uncertainty_amu_1loop_amu2L does not return the result of its C++ counterpart (returns ['gm2calc::calculate_uncertainty_amu_1loop(gm2calc::MSSMNoFV_o'])"
exit 1
