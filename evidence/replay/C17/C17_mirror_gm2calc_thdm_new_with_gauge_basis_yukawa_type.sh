#!/bin/sh
echo "gm2calc_thdm_new_with_gauge_basis: the C++ gauge object differs from the C struct in yukawa_type"
exit 1
