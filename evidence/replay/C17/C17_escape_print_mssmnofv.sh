#!/bin/sh
cd /verif && exec python3-vt -m props.replay_c17 probe mssm print_mssmnofv v_p
