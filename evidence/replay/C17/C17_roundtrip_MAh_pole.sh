#!/bin/sh
echo "gm2calc_mssmnofv_set_MAh_pole followed by gm2calc_mssmnofv_get_MAh does not return the value set"
exit 1
