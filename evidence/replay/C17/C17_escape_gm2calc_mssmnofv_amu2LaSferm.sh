#!/bin/sh
cd /verif && exec python3-vt -m props.replay_c17 probe mssm gm2calc_mssmnofv_amu2LaSferm d_p
