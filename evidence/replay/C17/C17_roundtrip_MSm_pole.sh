#!/bin/sh
echo "gm2calc_mssmnofv_set_MSm_pole followed by gm2calc_mssmnofv_get_MSm does not return the value set"
exit 1
