#!/bin/sh
echo "gm2calc_thdm_calculate_uncertainty_amu_2loop_amu1L_amu2L does not return the result of its C++ counterpart (returns ['gm2calc::calculate_uncertainty_amu_2loop(gm2calc::THDM const'])"
exit 1
