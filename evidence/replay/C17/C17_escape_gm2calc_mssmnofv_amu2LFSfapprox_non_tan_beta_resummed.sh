#!/bin/sh
cd /verif && exec python3-vt -m props.replay_c17 probe mssm gm2calc_mssmnofv_amu2LFSfapprox_non_tan_beta_resummed d_p
