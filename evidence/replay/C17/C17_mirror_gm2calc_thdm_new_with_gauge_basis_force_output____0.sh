#!/bin/sh
echo "gm2calc_thdm_new_with_gauge_basis: the C++ config object differs from the C struct in force_output != 0"
exit 1
