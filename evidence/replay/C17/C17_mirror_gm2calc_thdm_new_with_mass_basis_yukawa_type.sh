#!/bin/sh
echo "gm2calc_thdm_new_with_mass_basis: the C++ mass object differs from the C struct in yukawa_type"
exit 1
