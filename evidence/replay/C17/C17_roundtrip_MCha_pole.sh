#!/bin/sh
echo "gm2calc_mssmnofv_set_MCha_pole followed by gm2calc_mssmnofv_get_MCha does not return the value set"
exit 1
