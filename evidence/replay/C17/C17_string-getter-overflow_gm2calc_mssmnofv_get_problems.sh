#!/bin/sh
cd /verif && exec python3-vt -m props.replay_c17 strlen0 gm2calc_mssmnofv_get_problems 1610612736
