#!/bin/sh
echo "gm2calc_mssmnofv_calculate_uncertainty_amu_0loop_amu1L does not return the result of its C++ counterpart (returns ['gm2calc::calculate_uncertainty_amu_0loop(gm2calc::MSSMNoFV_o'])"
exit 1
