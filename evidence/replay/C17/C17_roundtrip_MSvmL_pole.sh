#!/bin/sh
echo "gm2calc_mssmnofv_set_MSvmL_pole followed by gm2calc_mssmnofv_get_MSvmL does not return the value set"
exit 1
