#!/bin/sh
echo "Yukawa type 0 rejected"
exit 1
