#!/bin/sh
cd /verif && exec python3-vt -m props.replay_c10 dxlog 500001.0009765625 500001.0006347656
