"""Reference definitions of the loop functions, transcribed from the literature
(NOT from the implementation):

  F1C..F4C, F1N..F4N : arXiv:1311.1775 Eqs. (2.9),(2.10), hep-ph/0609168 Eqs. (52)-(55) [two-loop ones
                       normalised to F(1)=1]
  G3, G4, Fa, Fb      : arXiv:1003.5820 Eqs. (37)-(40)
  Iabc                : arXiv:1003.5820 / 1311.1775 Eq. (6.4)
  f_PS, f_S, f_sferm  : hep-ph/0609168 Eqs. (70)-(72)  (integral definitions)
  F1, F1t, F2, F3     : arXiv:1502.04199 Eqs. (25)-(28) (integral definitions)
  f_CSl               : arXiv:1607.06292 Eq. (60)

Every definition is written over an abstract algebra: `x` may be a z3 real, a sympy symbol or an
mpmath number; `log`, `li2` are callables supplied by the caller.  Rational definitions are returned
as (numerator, denominator) so that no division is needed on the solver side.
"""
from fractions import Fraction as Fr


def _p(x, n):
    r = x
    for _ in range(n - 1):
        r = r * x
    return r


def F1C(x, log, li2):
    return (2 * (2 + 3 * x - 6 * x * x + _p(x, 3) + 6 * x * log(x)), _p(1 - x, 4))


def F2C(x, log, li2):
    return (3 * (-3 + 4 * x - x * x - 2 * log(x)), 2 * _p(1 - x, 3))


def F3C(x, log, li2):
    l = log(x)
    num = 4 * ((1 - x) * (151 * x * x - 335 * x + 592)
               + 6 * (21 * _p(x, 3) - 108 * x * x - 93 * x + 50) * l
               - 54 * x * (x * x - 2 * x - 2) * l * l
               - 108 * x * (x * x - 2 * x + 12) * li2(1 - x))
    return (num, 141 * _p(1 - x, 4))


def F4C(x, log, li2):
    l = log(x)
    num = -9 * (8 * (x * x - 3 * x + 2) + (11 * x * x - 40 * x + 5) * l
                - 2 * (x * x - 2 * x - 2) * l * l
                - 4 * (x * x - 2 * x + 9) * li2(1 - x))
    return (num, 122 * _p(1 - x, 3))


def F1N(x, log, li2):
    return (2 * (1 - 6 * x + 3 * x * x + 2 * _p(x, 3) - 6 * x * x * log(x)), _p(1 - x, 4))


def F2N(x, log, li2):
    return (3 * (1 - x * x + 2 * x * log(x)), _p(1 - x, 3))


def F3N(x, log, li2):
    num = 4 * ((1 - x) * (-97 * x * x - 529 * x + 2) + 6 * x * x * (13 * x + 81) * log(x)
               + 108 * x * (7 * x + 4) * li2(1 - x))
    return (num, 105 * _p(1 - x, 4))


def F4N(x, log, li2):
    num = -9 * ((x + 3) * (x * log(x) + x - 1) + (6 * x + 2) * li2(1 - x))
    return (num, 4 * _p(1 - x, 3))


def G3(x, log, li2):
    return ((x - 1) * (x - 3) + 2 * log(x), 2 * _p(x - 1, 3))


def G4(x, log, li2):
    return ((x - 1) * (x + 1) - 2 * x * log(x), 2 * _p(x - 1, 3))


RATLOG = {'F1C': F1C, 'F2C': F2C, 'F3C': F3C, 'F4C': F4C, 'F1N': F1N, 'F2N': F2N, 'F3N': F3N,
          'F4N': F4N, 'G3': G3, 'G4': G4}

# pole order of the denominator at x = 1
POLE = {'F1C': 4, 'F2C': 3, 'F3C': 4, 'F4C': 3, 'F1N': 4, 'F2N': 3, 'F3N': 4, 'F4N': 3, 'G3': 3,
        'G4': 3}

# documented values (exact where rational; PI2 = pi^2 handled by caller)
AT_ZERO = {'F1C': Fr(4), 'F2C': Fr(0), 'F4C': Fr(0), 'F1N': Fr(2), 'F2N': Fr(3),
           'F3N': Fr(8, 105), 'F4N': 'pi', 'f_PS': Fr(0), 'f_S': Fr(0), 'f_sferm': Fr(0),
           'f_CSl': Fr(0), 'F1': Fr(0), 'F1t': Fr(0)}
AT_ONE = {'F1C': Fr(1), 'F2C': Fr(1), 'F3C': Fr(1), 'F4C': Fr(1), 'F1N': Fr(1), 'F2N': Fr(1),
          'F3N': Fr(1), 'F4N': Fr(1), 'G3': Fr(1, 3), 'G4': Fr(1, 6)}


# ---------------------------------------------------------------------------- f_PS family
# Integral definition (hep-ph/0609168 (70)):  f_PS(z) = z Int_0^1 dx ln(x(1-x)/z) / (x(1-x) - z)
# Expanding 1/(1 - x(1-x)/z) geometrically (x(1-x) <= 1/4 < z) and integrating term by term:
#    f_PS(z) = sum_{n>=0} z^-n B_n [ ln z + 2 (H_{2n+1} - H_n) ],   B_n = (n!)^2/(2n+1)!
# with tail after N terms bounded by  (ln z + 4) (1/(4z))^N / (1 - 1/(4z))  for z >= 1
# (B_n <= 4^-n, 2(H_{2n+1}-H_n) <= 2 ln 2 + 2 < 4).

def harmonic(n):
    return sum(Fr(1, k) for k in range(1, n + 1))


def fps_series_coeffs(N):
    """[(B_n, c_n)] with f_PS = sum z^-n B_n (ln z + c_n)"""
    out = []
    from math import factorial
    for n in range(N):
        B = Fr(factorial(n) ** 2, factorial(2 * n + 1))
        c = 2 * (harmonic(2 * n + 1) - harmonic(n))
        out.append((B, c))
    return out


def f_S_from_fPS(z, fps, lz):
    """hep-ph/0609168 (71): f_S(z) = (2z-1) f_PS(z) - 2z(2 + ln z)"""
    return (2 * z - 1) * fps - 2 * z * (2 + lz)


def f_sferm_from_fPS(z, fps, lz):
    """hep-ph/0609168 (72): f_sferm(z) = z/2 [2 + ln z - f_PS(z)]"""
    return z * (2 + lz - fps) / 2


# arXiv:1502.04199 (25)-(28) reduced to f_PS by partial fractions of the integrands
# (validated against numerical quadrature of the integrals in the self test):
def F1_from_fPS(w, fps, lw):
    return (2 * w - 1) * fps / 2 - w * (2 + lw)


def F1t_from_fPS(w, fps, lw):
    return fps / 2


def F2_from_fPS(w, fps, lw):
    return 1 + (lw - fps) / 2


def F3_from_fPS(w, fps, lw):
    return (1 + 15 * w) * (2 + lw) / 2 + (17 - 30 * w) * fps / 4


def f_CSl_def(z, lz, li2_1m1oz, pi26):
    """arXiv:1607.06292 (60) times z"""
    return z * (z + z * (z - 1) * (li2_1m1oz - pi26) + (z - Fr(1, 2)) * lz)


FPS_FAMILY = {'f_S': f_S_from_fPS, 'f_sferm': f_sferm_from_fPS, 'F1': F1_from_fPS,
              'F1t': F1t_from_fPS, 'F2': F2_from_fPS, 'F3': F3_from_fPS}

# documented special values at z = 1/4 (f_PS(1/4) = ln 4)
AT_QUARTER = {'f_PS': ('ln4', 1, 0), 'F1': ('ln4', 0, Fr(-1, 2)), 'F2': ('ln4', -1, 1),
              'F3': ('ln4', 0, Fr(19, 4)), 'F1t': ('ln4', Fr(1, 2), 0)}
