"""Key -> parameter tables of the SLHA / GM2Calc / THDM input blocks, transcribed from README.md
(sections "MSSM: SLHA input parameters", "MSSM: GM2Calc input parameters", "THDM: SLHA-like input
parameters", "Block GM2CalcConfig") and the SLHA-1 conventions (hep-ph/0311123) for SMINPUTS / MASS /
MSOFT / HMIX / VCKMIN.

Each processor entry:  (C++ object type, C++ processor call, {key: spec})
spec = (accessor C++ expression on `o`, transform)   or  ('call', function-name-fragment)  or  None (documented: ignored)
transform in {'id', 'signed_sqr', 'sqrt4pi', 'inv', 'nonzero'}
"""

IGN = None


def diag3(name):
    return {0: '%s(0,0)' % name, 1: '%s(1,1)' % name, 2: '%s(2,2)' % name}


PROCESSORS = {}

# ---- Block GM2CalcInput -> MSSMNoFV_onshell (README "MSSM: GM2Calc input parameters")
g = {0: ('o.get_scale()', 'id'),
     1: ('call', 'set_alpha_MZ'),
     2: ('call', 'set_alpha_thompson'),
     3: ('call', 'set_TB'),
     4: ('o.get_Mu()', 'id'), 5: ('o.get_MassB()', 'id'), 6: ('o.get_MassWB()', 'id'),
     7: ('o.get_MassG()', 'id'), 8: ('o.get_MA0()', 'id')}
for i, nm in enumerate(['ml2', 'me2', 'mq2', 'mu2', 'md2']):
    for j in range(3):
        g[9 + 3 * i + j] = ('o.get_%s(%d,%d)' % (nm, j, j), 'signed_sqr')
for i, nm in enumerate(['Ae', 'Ad', 'Au']):
    for j in range(3):
        g[24 + 3 * i + j] = ('o.get_%s(%d,%d)' % (nm, j, j), 'id')
g[33] = IGN
PROCESSORS['gm2calcinput_mssm'] = ('gm2calc::MSSMNoFV_onshell', 'process_gm2calcinput_tuple', g)

# ---- Block SMINPUTS -> MSSMNoFV_onshell (SLHA-1 numbering)
PROCESSORS['sminputs_mssm'] = ('gm2calc::MSSMNoFV_onshell', 'process_sminputs_tuple', {
    1: IGN, 2: IGN,
    3: ('o.get_g3()', 'sqrt4pi'),
    4: ('o.get_physical().MVZ', 'id'), 5: ('o.get_physical().MFb', 'id'),
    6: ('o.get_physical().MFt', 'id'), 7: ('o.get_physical().MFtau', 'id'),
    8: ('o.get_physical().MFvt', 'id'), 9: ('o.get_physical().MVWm', 'id'),
    11: ('o.get_physical().MFe', 'id'), 12: ('o.get_physical().MFve', 'id'),
    13: ('o.get_physical().MFm', 'id'), 14: ('o.get_physical().MFvm', 'id'),
    21: ('o.get_physical().MFd', 'id'), 22: ('o.get_physical().MFu', 'id'),
    23: ('o.get_physical().MFs', 'id'), 24: ('o.get_physical().MFc', 'id')})

# ---- Block SMINPUTS -> SM (THDM input)
PROCESSORS['sminputs_sm'] = ('gm2calc::SM', 'process_sminputs_tuple', {
    1: ('o.get_alpha_em_mz()', 'inv'), 2: IGN,
    3: ('o.get_alpha_s_mz()', 'id'), 4: ('o.get_mz()', 'id'),
    5: ('o.get_md(2)', 'id'), 6: ('o.get_mu(2)', 'id'), 7: ('o.get_ml(2)', 'id'),
    8: ('o.get_mv(2)', 'id'), 9: ('o.get_mw()', 'id'),
    11: ('o.get_ml(0)', 'id'), 12: ('o.get_mv(0)', 'id'), 13: ('o.get_ml(1)', 'id'),
    14: ('o.get_mv(1)', 'id'), 21: ('o.get_md(0)', 'id'), 22: ('o.get_mu(0)', 'id'),
    23: ('o.get_md(1)', 'id'), 24: ('o.get_mu(1)', 'id')})

# ---- Block MSOFT -> MSSMNoFV_onshell
m = {1: ('o.get_MassB()', 'id'), 2: ('o.get_MassWB()', 'id'), 3: ('o.get_MassG()', 'id'),
     21: ('o.get_mHd2()', 'id'), 22: ('o.get_mHu2()', 'id')}
for base, nm in ((31, 'ml2'), (34, 'me2'), (41, 'mq2'), (44, 'mu2'), (47, 'md2')):
    for j in range(3):
        m[base + j] = ('o.get_%s(%d,%d)' % (nm, j, j), 'signed_sqr')
PROCESSORS['msoft'] = ('gm2calc::MSSMNoFV_onshell', 'process_msoft_tuple', m)

# ---- Block MASS -> MSSMNoFV_onshell_physical (PDG numbers)
pm = {1000012: 'MSveL', 1000014: 'MSvmL', 1000016: 'MSvtL',
      1000001: 'MSd(0)', 2000001: 'MSd(1)', 1000002: 'MSu(0)', 2000002: 'MSu(1)',
      1000011: 'MSe(0)', 2000011: 'MSe(1)', 1000013: 'MSm(0)', 2000013: 'MSm(1)',
      1000015: 'MStau(0)', 2000015: 'MStau(1)', 1000003: 'MSs(0)', 2000003: 'MSs(1)',
      1000004: 'MSc(0)', 2000004: 'MSc(1)', 1000005: 'MSb(0)', 2000005: 'MSb(1)',
      1000006: 'MSt(0)', 2000006: 'MSt(1)',
      25: 'Mhh(0)', 35: 'Mhh(1)', 36: 'MAh(1)', 37: 'MHpm(1)', 1000021: 'MGlu',
      1000022: 'MChi(0)', 1000023: 'MChi(1)', 1000025: 'MChi(2)', 1000035: 'MChi(3)',
      1000024: 'MCha(0)', 1000037: 'MCha(1)'}
mm = {k: ('o.%s' % v, 'id') for k, v in pm.items()}
mm[24] = ('o.MVWm', 'nonzero')
PROCESSORS['mass_mssm'] = ('gm2calc::MSSMNoFV_onshell_physical', 'process_mass_tuple', mm)

# ---- Block MASS -> thdm::Mass_basis
PROCESSORS['mass_thdm'] = ('gm2calc::thdm::Mass_basis', 'process_mass_tuple', {
    25: ('o.mh', 'id'), 35: ('o.mH', 'id'), 36: ('o.mA', 'id'), 37: ('o.mHp', 'id')})

# ---- Block MASS -> SM (W mass)
PROCESSORS['mass_sm'] = ('gm2calc::SM', 'process_mass_tuple', {24: ('o.get_mw()', 'id')})

# ---- Block MINPAR -> thdm::Gauge_basis
mg = {3: ('o.tan_beta', 'id'), 18: ('o.m122', 'id'), 21: ('o.zeta_u', 'id'), 22: ('o.zeta_d', 'id'),
      23: ('o.zeta_l', 'id'), 24: ('call', 'int_to_cpp_yukawa_type')}
for i in range(7):
    mg[11 + i] = ('o.lambda(%d)' % i, 'id')
PROCESSORS['minpar_gauge'] = ('gm2calc::thdm::Gauge_basis', 'process_minpar_tuple', mg)

# ---- Block MINPAR -> thdm::Mass_basis
PROCESSORS['minpar_mass'] = ('gm2calc::thdm::Mass_basis', 'process_minpar_tuple', {
    3: ('o.tan_beta', 'id'), 16: ('o.lambda_6', 'id'), 17: ('o.lambda_7', 'id'), 18: ('o.m122', 'id'),
    20: ('o.sin_beta_minus_alpha', 'id'), 21: ('o.zeta_u', 'id'), 22: ('o.zeta_d', 'id'),
    23: ('o.zeta_l', 'id'), 24: ('call', 'int_to_cpp_yukawa_type')})

# ---- Block HMIX (SLHA-1: 1 mu, 2 tan beta, 3 v, 4 mA^2)
PROCESSORS['hmix'] = ('gm2calc::HMIX_data', 'process_hmix_tuple', {
    1: ('o.mu', 'id'), 2: ('o.tanb', 'id'), 3: ('o.v', 'id'), 4: ('o.mA2', 'id')})

# ---- Block VCKMIN (SLHA-2: 1 lambda, 2 A, 3 rhobar, 4 etabar)
PROCESSORS['vckmin'] = ('gm2calc::CKM_wolfenstein', 'process_vckm_tuple', {
    1: ('o.lambda', 'id'), 2: ('o.A', 'id'), 3: ('o.rho', 'id'), 4: ('o.eta', 'id')})

# ---- Block GM2CalcInput -> GM2CalcInput_data (SLHA input: alpha(MZ), alpha(0))
PROCESSORS['gm2calcinput_data'] = ('gm2calc::GM2CalcInput_data', 'process_gm2calcinput_tuple', {
    0: IGN, 1: ('o.alpha_MZ', 'id'), 2: ('o.alpha_thompson', 'id')})

# ---- Block GM2CalcInput -> SM (mhSM)
PROCESSORS['gm2calcinput_sm'] = ('gm2calc::SM', 'process_gm2calcinput_tuple', {33: ('o.get_mh()', 'id')})

# GM2CalcConfig: entry -> (field, allowed values)
CONFIG = {0: ('output_format', [0, 1, 2, 3, 4]), 1: ('loop_order', [0, 1, 2]),
          2: ('tanb_resummation', [0, 1]), 3: ('force_output', [0, 1]), 4: ('verbose_output', [0, 1]),
          5: ('calculate_uncertainty', [0, 1]), 6: ('running_couplings', [0, 1])}
